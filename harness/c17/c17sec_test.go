//go:build verif && go1.25

package c17

// (a') vsec: the signer over the REAL cache facade.
//
// The `verify` mode hands the signer a stub acme.Cache, i.e. the bit "GetTLSSecretContent returned an
// error" is an input. Here that bit is computed by the code under test: the real
// services.createCacheFacade (hook services.VerifCreateCacheFacade) over a controller-runtime fake
// client holding (or not holding) the Secret object, the real acme.signer on top of it, in a
// testing/synctest bubble. The Secret is varied in everything "missing or unreadable" can depend on:
//
//	type     kubernetes.io/tls | Opaque | "" | another type
//	tls.crt  absent | empty | not PEM | a PEM block that is not a CERTIFICATE | CERTIFICATE with broken DER |
//	         certificate followed by stray text | certificate | certificate + a second one (chain)
//	tls.key  absent | empty | not PEM | a PEM block of another type | a valid key of another pair |
//	         the key followed by stray text | the key (EC PRIVATE KEY | EC PARAMETERS + EC PRIVATE KEY | PKCS#8)
//	ca.crt   absent | garbage | the certificate itself (the controller verifies the chain)
//	an unrelated extra key
//
// Observed next to what `verify` observes:
//
//	use=   does the controller itself accept the secret as a certificate: the real
//	       GetTLSSecretPath (-> getCertificate -> buildCertFromCrtAndKey) of the same facade, same clock.
//	       This is the Spec's "readable": the property's "unreadable" is what HAProxy could not be given
//	after= the Secret object after Notify (none | old = untouched | new = type kubernetes.io/tls with
//	       exactly tls.crt/tls.key as returned by Sign), written by the real SetTLSSecretContent; the
//	       store failure is injected in the client (Update and Create refused)

import (
	"context"
	"crypto/ecdsa"
	"crypto/elliptic"
	"crypto/rand"
	"crypto/x509"
	"encoding/pem"
	"errors"
	"fmt"
	"os"
	"path/filepath"
	"reflect"
	"strconv"
	"strings"
	"testing"
	"testing/synctest"
	"time"

	api "k8s.io/api/core/v1"
	"sigs.k8s.io/controller-runtime/pkg/client"
	"sigs.k8s.io/controller-runtime/pkg/client/fake"
	"sigs.k8s.io/controller-runtime/pkg/client/interceptor"

	"github.com/jcmoraisjr/haproxy-ingress/pkg/acme"
	ctrlconfig "github.com/jcmoraisjr/haproxy-ingress/pkg/controller/config"
	"github.com/jcmoraisjr/haproxy-ingress/pkg/controller/services"
	"github.com/jcmoraisjr/haproxy-ingress/pkg/converters/tracker"
	convtypes "github.com/jcmoraisjr/haproxy-ingress/pkg/converters/types"
	hatypes "github.com/jcmoraisjr/haproxy-ingress/pkg/haproxy/types"
	types_helper "github.com/jcmoraisjr/haproxy-ingress/pkg/types/helper_test"

	"hapverif/gen"
	"hapverif/xnsworld"
)

type scase struct {
	acct        bool
	none        bool   // no Secret object
	typ         string // tls | opaque | empty | other
	crt         string // absent | empty | text | keyblk | badder | trail | c | chain
	key         string // absent | empty | text | certblk | other | stray | ok | okp | pk8
	ca          string // - | bad | self
	extra       bool
	notAfterSec int64 // crt c | chain
	sans        []string
	nowNs       int64
	windowNs    int64
	declared    []string
	rcrt, rkey  bool // Sign returns a certificate / a key
	rerr        bool
	setErr      bool
}

var secTypes = map[string]api.SecretType{"tls": api.SecretTypeTLS, "opaque": api.SecretTypeOpaque, "empty": "", "other": "hapverif.local/certificate"}

func (c *scase) isCert() bool { return c.crt == "c" || c.crt == "chain" }

func (c *scase) secretText() string {
	if c.none {
		return "none"
	}
	crt := c.crt
	if c.isCert() {
		crt = fmt.Sprintf("%s:%d:%s", c.crt, c.notAfterSec*int64(time.Second), joinOr(c.sans, ","))
	}
	return strings.Join([]string{c.typ, crt, c.key, c.ca, b2s(c.extra)}, "/")
}

func (c *scase) line() string {
	return fmt.Sprintf("vsec %s %s %d %d %s %s%s%s %s", b2s(c.acct), c.secretText(), c.nowNs, c.windowNs,
		joinOr(c.declared, ","), b2s(c.rcrt), b2s(c.rkey), b2s(c.rerr), b2s(c.setErr))
}

func parseVsec(f []string) *scase {
	// vsec acct secret now win decl sign setErr
	c := &scase{acct: f[1] == "1"}
	if f[2] == "none" {
		c.none = true
	} else {
		p := strings.Split(f[2], "/")
		c.typ, c.key, c.ca, c.extra = p[0], p[2], p[3], p[4] == "1"
		q := strings.SplitN(p[1], ":", 3)
		c.crt = q[0]
		if len(q) == 3 {
			na, _ := strconv.ParseInt(q[1], 10, 64)
			c.notAfterSec = na / int64(time.Second)
			c.sans = splitOr(q[2], ",")
		}
	}
	c.nowNs, _ = strconv.ParseInt(f[3], 10, 64)
	c.windowNs, _ = strconv.ParseInt(f[4], 10, 64)
	c.declared = sortedSet(splitOr(f[5], ","))
	c.rcrt, c.rkey, c.rerr = f[6][0] == '1', f[6][1] == '1', f[6][2] == '1'
	c.setErr = f[7] == "1"
	return c
}

// ---- PEM material (the key of every generated certificate is caKey)

var secPEM struct {
	keyOK, keyOKP, keyPK8, keyOther []byte
}

func secInitPEM(t *testing.T) {
	if secPEM.keyOK != nil {
		return
	}
	mkCert(t, 1, nil) // creates caKey
	der, err := x509.MarshalECPrivateKey(caKey)
	if err != nil {
		t.Fatal(err)
	}
	secPEM.keyOK = pem.EncodeToMemory(&pem.Block{Type: "EC PRIVATE KEY", Bytes: der})
	secPEM.keyOKP = append(pem.EncodeToMemory(&pem.Block{Type: "EC PARAMETERS", Bytes: []byte{0x06, 0x08, 0x2a, 0x86, 0x48, 0xce, 0x3d, 0x03, 0x01, 0x07}}), secPEM.keyOK...)
	p8, err := x509.MarshalPKCS8PrivateKey(caKey)
	if err != nil {
		t.Fatal(err)
	}
	secPEM.keyPK8 = pem.EncodeToMemory(&pem.Block{Type: "PRIVATE KEY", Bytes: p8})
	other, err := ecdsa.GenerateKey(elliptic.P256(), rand.Reader)
	if err != nil {
		t.Fatal(err)
	}
	der, _ = x509.MarshalECPrivateKey(other)
	secPEM.keyOther = pem.EncodeToMemory(&pem.Block{Type: "EC PRIVATE KEY", Bytes: der})
}

func certPEM(c *x509.Certificate) []byte {
	return pem.EncodeToMemory(&pem.Block{Type: "CERTIFICATE", Bytes: c.Raw})
}

// object: the Secret of the case (nil = none)
func (c *scase) object(t *testing.T) *api.Secret {
	if c.none {
		return nil
	}
	secInitPEM(t)
	typ, ok := secTypes[c.typ]
	if !ok {
		panic("bad secret type " + c.typ)
	}
	s := &api.Secret{Type: typ, Data: map[string][]byte{}}
	s.Namespace, s.Name = ns, "s1"
	var leaf []byte
	// a valid, far from expiring certificate that covers a.x: what `trail` spoils
	fixed := func() []byte { return certPEM(mkCert(t, 400*86400, []string{"a.x"})) }
	switch c.crt {
	case "absent":
	case "empty":
		s.Data[api.TLSCertKey] = []byte{}
	case "text":
		s.Data[api.TLSCertKey] = []byte("this is not a certificate\n")
	case "keyblk":
		s.Data[api.TLSCertKey] = secPEM.keyOK
	case "badder":
		s.Data[api.TLSCertKey] = pem.EncodeToMemory(&pem.Block{Type: "CERTIFICATE", Bytes: []byte("not der")})
	case "trail":
		leaf = fixed()
		s.Data[api.TLSCertKey] = append(append([]byte{}, leaf...), []byte("# managed by hand\n")...)
	case "c":
		leaf = certPEM(mkCert(t, c.notAfterSec, c.sans))
		s.Data[api.TLSCertKey] = leaf
	case "chain":
		leaf = certPEM(mkCert(t, c.notAfterSec, c.sans))
		s.Data[api.TLSCertKey] = append(append([]byte{}, leaf...), certPEM(mkCert(t, 4000*86400, []string{"issuer.x"}))...)
	default:
		panic("bad crt state " + c.crt)
	}
	switch c.key {
	case "absent":
	case "empty":
		s.Data[api.TLSPrivateKeyKey] = []byte{}
	case "text":
		s.Data[api.TLSPrivateKeyKey] = []byte("this is not a key\n")
	case "certblk":
		s.Data[api.TLSPrivateKeyKey] = fixed()
	case "other":
		s.Data[api.TLSPrivateKeyKey] = secPEM.keyOther
	case "ok":
		s.Data[api.TLSPrivateKeyKey] = secPEM.keyOK
	case "okp":
		s.Data[api.TLSPrivateKeyKey] = secPEM.keyOKP
	case "pk8":
		s.Data[api.TLSPrivateKeyKey] = secPEM.keyPK8
	case "stray":
		// the key of the pair followed by stray text: tls.X509KeyPair takes the first key block, checkValidPEM
		// (buildCertFromCrtAndKey) wants nothing but PEM blocks
		s.Data[api.TLSPrivateKeyKey] = append(append([]byte{}, secPEM.keyOK...), []byte("# managed by hand\n")...)
	default:
		panic("bad key state " + c.key)
	}
	switch c.ca {
	case "-":
	case "bad":
		s.Data["ca.crt"] = []byte("this is not a ca\n")
	case "self":
		if leaf == nil {
			leaf = fixed()
		}
		s.Data["ca.crt"] = leaf
	default:
		panic("bad ca state " + c.ca)
	}
	if c.extra {
		s.Data["notes.txt"] = []byte("unrelated")
	}
	return s
}

// countingCache delegates to the real facade and counts the calls of the signer
type countingCache struct {
	acme.Cache
	secret     string
	gets, sets int
	bad        bool
}

func (c *countingCache) GetTLSSecretContent(secretName string) (*acme.TLSSecret, error) {
	c.gets++
	if secretName != c.secret {
		c.bad = true
	}
	return c.Cache.GetTLSSecretContent(secretName)
}

func (c *countingCache) SetTLSSecretContent(secretName string, pemCrt, pemKey []byte) error {
	c.sets++
	if secretName != c.secret {
		c.bad = true
	}
	return c.Cache.SetTLSSecretContent(secretName, pemCrt, pemKey)
}

var secDir string

func secScratch(t *testing.T) string {
	if secDir == "" {
		base := ""
		if st, err := os.Stat("/dev/shm"); err == nil && st.IsDir() {
			base = "/dev/shm"
		}
		d, err := os.MkdirTemp(base, "c17sec")
		if err != nil {
			t.Fatal(err)
		}
		for _, s := range []string{"crt", "cacrt", "crl", "dh"} {
			if err := os.MkdirAll(filepath.Join(d, s), 0o755); err != nil {
				t.Fatal(err)
			}
		}
		secDir = d
	}
	return secDir
}

// secCleanup removes the scratch directory of the facade (certificate files written by getCertificate)
func secCleanup() {
	if secDir != "" {
		os.RemoveAll(secDir)
		secDir = ""
	}
}

func runVsec(t *testing.T, c *scase) {
	secret := ns + "/s1"
	st := (&hatypes.AcmeData{}).Storages()
	st.Acquire(secret).AddDomains(c.declared)
	items := st.BuildAcmeStorages()
	res := "PANIC no-item"
	if len(items) == 1 {
		obj := c.object(t)
		dir := secScratch(t)
		synctest.Test(t, func(t *testing.T) {
			defer func() {
				if r := recover(); r != nil {
					res = fmt.Sprintf("PANIC %v", r)
				}
			}()
			time.Sleep(time.Duration(c.nowNs))
			failStore := false
			b := fake.NewClientBuilder().WithScheme(xnsworld.Scheme)
			if obj != nil {
				b = b.WithObjects(obj.DeepCopy())
			}
			cli := b.WithInterceptorFuncs(interceptor.Funcs{
				Update: func(ctx context.Context, cl client.WithWatch, o client.Object, opts ...client.UpdateOption) error {
					if failStore {
						return errors.New("store refused")
					}
					return cl.Update(ctx, o, opts...)
				},
				Create: func(ctx context.Context, cl client.WithWatch, o client.Object, opts ...client.CreateOption) error {
					if failStore {
						return errors.New("store refused")
					}
					return cl.Create(ctx, o, opts...)
				},
			}).Build()
			cfg := &ctrlconfig.Config{
				AnnPrefix:         []string{"ingress.kubernetes.io"},
				DefaultDirCerts:   filepath.Join(dir, "crt"),
				DefaultDirCACerts: filepath.Join(dir, "cacrt"),
				DefaultDirCrl:     filepath.Join(dir, "crl"),
				DefaultDirDHParam: filepath.Join(dir, "dh"),
			}
			facade := services.VerifCreateCacheFacade(context.Background(), cli, cfg, tracker.NewTracker(), services.CreateSSLCerts(cfg),
				&convtypes.DynamicConfig{}, func(client.Object) {})
			// what the controller itself makes of the secret (ingress tls block -> GetTLSSecretPath)
			_, useErr := facade.GetTLSSecretPath(ns, secret, nil)
			ac, ok := facade.(acme.Cache)
			if !ok {
				panic("the cache facade does not implement acme.Cache")
			}
			cache := &countingCache{Cache: ac, secret: secret}
			stub := &stubClient{c: &vcase{crt: c.rcrt, key: c.rkey, err: c.rerr}, crt: []byte("crt-pem"), key: []byte("key-pem")}
			metrics := &recMetrics{MetricsMock: types_helper.NewMetricsMock()}
			logger := &types_helper.LoggerMock{T: t}
			var cl acme.Client
			if c.acct {
				cl = stub
			}
			signer := acme.NewSignerWithClient(logger, cache, metrics, cl, time.Duration(c.windowNs))
			failStore = c.setErr
			err := signer.Notify(items[0])
			failStore = false
			sign := "-"
			if len(stub.calls) == 1 {
				ds := make([]string, len(stub.calls[0]))
				for i, d := range stub.calls[0] {
					ds[i] = showDom(d)
				}
				sign = strings.Join(ds, ",")
			}
			metric := "-:0"
			if len(metrics.rec) == 1 {
				metric = metrics.rec[0]
			}
			after := "odd"
			cur := api.Secret{}
			gerr := cli.Get(context.Background(), client.ObjectKey{Namespace: ns, Name: "s1"}, &cur)
			switch {
			case gerr != nil && obj == nil:
				after = "none"
			case gerr != nil:
			case cur.Type == api.SecretTypeTLS && len(cur.Data) == 2 && string(cur.Data[api.TLSCertKey]) == "crt-pem" && string(cur.Data[api.TLSPrivateKeyKey]) == "key-pem":
				after = "new"
			case obj != nil && cur.Type == obj.Type && sameData(cur.Data, obj.Data):
				after = "old"
			}
			res = fmt.Sprintf("use=%s got=%s sign=%s write=%s err=%s metric=%s after=%s", b2s(useErr == nil), b2s(cache.gets == 1), sign,
				b2s(cache.sets == 1), b2s(err != nil), metric, after)
			if cache.bad || cache.gets > 1 || cache.sets > 1 || len(stub.calls) > 1 || len(metrics.rec) > 1 {
				res = "PANIC inconsistent-calls " + res
			}
		})
	}
	fmt.Fprintf(out, "C17 %s => %s\n", c.line(), res)
	stat("vsec_lines", 1)
	switch {
	case c.none:
		stat("vsec_secret_none", 1)
	default:
		stat("vsec_type_"+c.typ, 1)
		stat("vsec_crt_"+c.crt, 1)
		stat("vsec_key_"+c.key, 1)
		stat("vsec_ca_"+c.ca, 1)
	}
	if strings.Contains(res, " sign=-") {
		stat("vsec_not_requested", 1)
	} else if !strings.HasPrefix(res, "PANIC") {
		stat("vsec_requested", 1)
	}
	if strings.HasPrefix(res, "use=1") {
		stat("vsec_usable_by_controller", 1)
	}
}

func sameData(a, b map[string][]byte) bool {
	if len(a) != len(b) {
		return false
	}
	for k, v := range a {
		w, ok := b[k]
		if !ok || !reflect.DeepEqual(append([]byte{}, v...), append([]byte{}, w...)) {
			return false
		}
	}
	return true
}

var (
	vsTypes = []string{"tls", "opaque", "empty", "other"}
	vsCrts  = []string{"absent", "empty", "text", "keyblk", "badder", "trail", "c", "chain"}
	vsKeys  = []string{"absent", "empty", "text", "certblk", "other", "stray", "ok", "okp", "pk8"}
	vsCas   = []string{"-", "bad", "self"}
)

func genVsec(t *testing.T, tier string, r *gen.Rng) {
	window := 30 * day
	wsec := window / int64(time.Second)
	ok := func(c *scase) *scase { c.acct, c.rcrt, c.rkey, c.windowNs = true, true, true, window; return c }
	// E1 exhaustive: type x tls.crt state x tls.key state x ca.crt state, for a certificate that is valid, far from
	// expiring and covers the declared names (the only reason left to request is "unreadable"); extra key alternating
	n := 0
	for _, typ := range vsTypes {
		for _, crt := range vsCrts {
			for _, key := range vsKeys {
				for _, ca := range vsCas {
					n++
					runVsec(t, ok(&scase{typ: typ, crt: crt, key: key, ca: ca, extra: n%2 == 0, notAfterSec: wsec + 86400*300,
						sans: []string{"*.x", "a.x"}, declared: []string{"a.x", "b.x"}}))
				}
			}
		}
	}
	stat("vsec_exhaustive_type_x_crt_x_key_x_ca", 1)
	// E2 exhaustive: type x boundary offsets x covering/not covering x {key ok, key absent}, and no secret at all
	for _, typ := range vsTypes {
		for _, dsec := range []int64{-1, 0, 1} {
			for _, nowNs := range []int64{0, 1} {
				for _, decl := range [][]string{{"a.x"}, {"a.x", "c.a.x"}} {
					for _, key := range []string{"ok", "absent"} {
						runVsec(t, ok(&scase{typ: typ, crt: "c", key: key, ca: "-", notAfterSec: wsec + dsec, sans: []string{"*.x", "a.x"},
							nowNs: nowNs, declared: decl}))
					}
				}
			}
		}
	}
	stat("vsec_exhaustive_type_x_boundary_x_coverage", 1)
	// E3 exhaustive: Sign / store results on the real SetTLSSecretContent, secret of every type | none
	for _, typ := range append([]string{"none"}, vsTypes...) {
		for m := 0; m < 32; m++ {
			c := &scase{acct: m&16 != 0, none: typ == "none", typ: typ, crt: "c", key: "ok", ca: "-", notAfterSec: wsec - 100, sans: []string{"a.x"},
				windowNs: window, declared: []string{"a.x"}, rcrt: m&1 != 0, rkey: m&2 != 0, rerr: m&4 != 0, setErr: m&8 != 0}
			runVsec(t, c)
		}
	}
	stat("vsec_exhaustive_type_x_sign_results", 1)
	// random
	cnt := 1500
	if tier == "thorough" {
		cnt = 40000
	}
	pool := []string{"a.x", "b.x", "*.x", "c.a.x", "*.a.x", "a.y", "*.y", "b.a.x"}
	for i := 0; i < cnt; i++ {
		c := &scase{acct: !r.Chance(1, 25), none: r.Chance(1, 12), rcrt: !r.Chance(1, 6), rkey: !r.Chance(1, 6), rerr: r.Chance(1, 5), setErr: r.Chance(1, 6)}
		c.typ = gen.Pick(r, vsTypes)
		// half of the secrets are complete pairs
		if r.Chance(1, 2) {
			c.crt, c.key, c.ca = gen.Pick(r, []string{"c", "c", "chain"}), gen.Pick(r, []string{"ok", "ok", "okp", "pk8"}), gen.Pick(r, []string{"-", "-", "-", "self"})
		} else {
			c.crt, c.key, c.ca = gen.Pick(r, vsCrts), gen.Pick(r, vsKeys), gen.Pick(r, vsCas)
		}
		c.extra = r.Chance(1, 3)
		c.windowNs = gen.Pick(r, []int64{0, 1, int64(time.Second), day, 30 * day, 90 * day, -day})
		c.nowNs = gen.Pick(r, []int64{0, 1, 2, 999999999, int64(time.Second), 3 * day, 3*day + 1})
		dueSec := (c.nowNs + c.windowNs) / int64(time.Second)
		switch r.Intn(5) {
		case 0:
			c.notAfterSec = dueSec + int64(r.Range(-2, 2))
		case 1:
			c.notAfterSec = dueSec + int64(r.Range(-100000, 100000))
		default:
			c.notAfterSec = dueSec + int64(r.Range(1, 400))*86400
		}
		for k := r.Range(0, 3); k > 0; k-- {
			c.sans = append(c.sans, gen.Pick(r, pool))
		}
		c.sans = sortedSet(c.sans)
		var decl []string
		for k := r.Range(1, 3); k > 0; k-- {
			if len(c.sans) > 0 && r.Chance(2, 3) {
				s := gen.Pick(r, c.sans)
				if strings.HasPrefix(s, "*.") && r.Bool() {
					s = gen.Pick(r, []string{"a", "b", "zz", "c.a"}) + s[1:]
				}
				decl = append(decl, s)
			} else {
				decl = append(decl, gen.Pick(r, pool))
			}
		}
		c.declared = sortedSet(decl)
		if !c.isCert() {
			c.notAfterSec, c.sans = 0, nil
		}
		runVsec(t, c)
	}
}
