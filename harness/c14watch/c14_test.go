//go:build verif

// Package c14watch drives the real watchers of pkg/controller/reconciler (handler table,
// predicates, hdlr.Create/Update/Delete/Generic, getChangedObjects) through the verif hook
// (pkg/controller/reconciler/verif_export.go).
//
//	seq : one goroutine, op sequences with swaps; every returned batch is printed in canonical form
//	conc: one goroutine per group of kinds (the per-kind informer goroutines) firing handlers while
//	      another goroutine calls getChangedObjects in a loop; built with -race (see gorace).
//
// One case per line: `C14 seq|conc <cfg> <ops> => acc=…;q=…;<batch>;…` (format: lean/HapVerif/Drv/C14.lean).
package c14watch

import (
	"bufio"
	"context"
	"fmt"
	"os"
	"reflect"
	"runtime"
	"sort"
	"strconv"
	"strings"
	"sync"
	"sync/atomic"
	"testing"

	api "k8s.io/api/core/v1"
	discoveryv1 "k8s.io/api/discovery/v1"
	networking "k8s.io/api/networking/v1"
	metav1 "k8s.io/apimachinery/pkg/apis/meta/v1"
	k8stypes "k8s.io/apimachinery/pkg/types"
	"sigs.k8s.io/controller-runtime/pkg/client"
	"sigs.k8s.io/controller-runtime/pkg/event"
	gatewayv1 "sigs.k8s.io/gateway-api/apis/v1"
	gatewayv1alpha2 "sigs.k8s.io/gateway-api/apis/v1alpha2"
	gatewayv1beta1 "sigs.k8s.io/gateway-api/apis/v1beta1"

	"github.com/jcmoraisjr/haproxy-ingress/pkg/controller/config"
	"github.com/jcmoraisjr/haproxy-ingress/pkg/controller/reconciler"
	convtypes "github.com/jcmoraisjr/haproxy-ingress/pkg/converters/types"

	"hapverif/gen"
)

// ---------------------------------------------------------------- ops

type cfgT struct{ epSlice, hasA2, hasB1, hasV1, hasTCPR, publish bool }

func b2s(b bool) string {
	if b {
		return "1"
	}
	return "0"
}

func (c cfgT) String() string {
	return b2s(c.epSlice) + b2s(c.hasA2) + b2s(c.hasB1) + b2s(c.hasV1) + b2s(c.hasTCPR) + b2s(c.publish)
}

func parseCfg(s string) cfgT {
	for len(s) < 6 {
		s += "0"
	}
	return cfgT{s[0] == '1', s[1] == '1', s[2] == '1', s[3] == '1', s[4] == '1', s[5] == '1'}
}

type opT struct {
	swap             bool
	kind             string
	typ              byte // c u d g
	ns               int  // -1: cluster scoped
	name             int
	label            int // -1: none
	vOld, vNew, chgd bool
	data             int // -1: nil map, 0: empty map, k: {"k": "k"}
}

func optStr(n int) string {
	if n < 0 {
		return "-"
	}
	return strconv.Itoa(n)
}

func (o opT) String() string {
	if o.swap {
		return "S"
	}
	return strings.Join([]string{o.kind, string(o.typ), optStr(o.ns), strconv.Itoa(o.name), optStr(o.label),
		b2s(o.vOld), b2s(o.vNew), b2s(o.chgd), optStr(o.data)}, ".")
}

func parseOpt(s string) int {
	if s == "-" {
		return -1
	}
	n, _ := strconv.Atoi(s)
	return n
}

func parseOp(s string) (opT, bool) {
	if s == "S" {
		return opT{swap: true}, true
	}
	f := strings.Split(s, ".")
	if len(f) != 9 || len(f[1]) != 1 {
		return opT{}, false
	}
	return opT{kind: f[0], typ: f[1][0], ns: parseOpt(f[2]), name: parseOpt(f[3]), label: parseOpt(f[4]),
		vOld: f[5] == "1", vNew: f[6] == "1", chgd: f[7] == "1", data: parseOpt(f[8])}, true
}

func opsStr(ops []opT) string {
	if len(ops) == 0 {
		return "-"
	}
	s := make([]string, len(ops))
	for i, o := range ops {
		s[i] = o.String()
	}
	return strings.Join(s, ",")
}

func parseOps(s string) []opT {
	var res []opT
	if s == "-" || s == "" {
		return nil
	}
	for _, t := range strings.Split(s, ",") {
		if o, ok := parseOp(t); ok {
			res = append(res, o)
		}
	}
	return res
}

var allKinds = []string{"cm", "svc", "ep", "eps", "secret", "pod", "ing", "ingcls",
	"gwA2", "gwclsA2", "hrA2", "gwB1", "gwclsB1", "hrB1", "gwV1", "gwclsV1", "hrV1", "tcpr"}

var clusterScoped = map[string]bool{"ingcls": true, "gwclsA2": true, "gwclsB1": true, "gwclsV1": true}

// ---------------------------------------------------------------- objects

// validity of an object as answered by the stub IsValidResource: carried in GenerateName (no
// predicate reads it); the object's identity (event id + old/new) is carried in UID.
type stubValidator struct{}

func valid(o client.Object) bool                                              { return o.GetGenerateName() == "valid" }
func (stubValidator) IsValidGatewayA2(o *gatewayv1alpha2.Gateway) bool        { return valid(o) }
func (stubValidator) IsValidGatewayClassA2(o *gatewayv1alpha2.GatewayClass) bool { return valid(o) }
func (stubValidator) IsValidGatewayB1(o *gatewayv1beta1.Gateway) bool         { return valid(o) }
func (stubValidator) IsValidGatewayClassB1(o *gatewayv1beta1.GatewayClass) bool { return valid(o) }
func (stubValidator) IsValidGateway(o *gatewayv1.Gateway) bool                { return valid(o) }
func (stubValidator) IsValidGatewayClass(o *gatewayv1.GatewayClass) bool      { return valid(o) }
func (stubValidator) IsValidIngress(o *networking.Ingress) bool               { return valid(o) }
func (stubValidator) IsValidIngressClass(o *networking.IngressClass) bool     { return valid(o) }

func newObj(kind string) client.Object {
	switch kind {
	case "cm":
		return &api.ConfigMap{}
	case "svc":
		return &api.Service{}
	case "ep":
		return &api.Endpoints{}
	case "eps":
		return &discoveryv1.EndpointSlice{}
	case "secret":
		return &api.Secret{}
	case "pod":
		return &api.Pod{}
	case "ing":
		return &networking.Ingress{}
	case "ingcls":
		return &networking.IngressClass{}
	case "gwA2":
		return &gatewayv1alpha2.Gateway{}
	case "gwclsA2":
		return &gatewayv1alpha2.GatewayClass{}
	case "hrA2":
		return &gatewayv1alpha2.HTTPRoute{}
	case "gwB1":
		return &gatewayv1beta1.Gateway{}
	case "gwclsB1":
		return &gatewayv1beta1.GatewayClass{}
	case "hrB1":
		return &gatewayv1beta1.HTTPRoute{}
	case "gwV1":
		return &gatewayv1.Gateway{}
	case "gwclsV1":
		return &gatewayv1.GatewayClass{}
	case "hrV1":
		return &gatewayv1.HTTPRoute{}
	case "tcpr":
		return &gatewayv1alpha2.TCPRoute{}
	}
	panic("kind " + kind)
}

// mkObj builds the old (isOld) or new object of event id
func mkObj(o opT, id int, isOld bool) client.Object {
	obj := newObj(o.kind)
	if o.ns >= 0 {
		obj.SetNamespace("n" + strconv.Itoa(o.ns))
	}
	obj.SetName("o" + strconv.Itoa(o.name))
	tag := strconv.Itoa(id) + "n"
	v := o.vNew
	if isOld {
		tag = strconv.Itoa(id) + "o"
		v = o.vOld
	}
	obj.SetUID(k8stypes.UID(tag))
	if v {
		obj.SetGenerateName("valid")
	}
	obj.SetGeneration(1)
	if o.kind == "eps" && o.label >= 0 {
		obj.SetLabels(map[string]string{"kubernetes.io/service-name": "o" + strconv.Itoa(o.label)})
	} else if o.kind == "eps" && id%2 == 1 {
		obj.SetLabels(map[string]string{"kubernetes.io/service-name": ""}) // empty label: falls back to the name
	}
	if cm, ok := obj.(*api.ConfigMap); ok {
		switch {
		case o.data == 0:
			cm.Data = map[string]string{}
		case o.data > 0:
			cm.Data = map[string]string{"k": strconv.Itoa(o.data)}
		}
	}
	// the part watched by the kind's update predicate differs between old and new iff o.chgd
	if !isOld && o.chgd && o.typ == 'u' {
		switch t := obj.(type) {
		case *api.Endpoints:
			t.Subsets = []api.EndpointSubset{{Addresses: []api.EndpointAddress{{IP: "10.0.0.1"}}}}
		case *discoveryv1.EndpointSlice:
			t.Endpoints = []discoveryv1.Endpoint{{Addresses: []string{"10.0.0.1"}}}
		case *api.Pod:
			now := metav1.Now()
			t.DeletionTimestamp = &now
		case *api.Service, *networking.Ingress:
			if id%2 == 0 {
				obj.SetGeneration(2)
			} else {
				obj.SetAnnotations(map[string]string{"a": "changed"})
			}
		default:
			obj.SetGeneration(2)
		}
	}
	return obj
}

// ---------------------------------------------------------------- world

type world struct {
	w    *reconciler.VerifWatchers
	q    *reconciler.VerifQueue
	hdlr map[reflect.Type]reconciler.VerifHandler
}

func newWorld(c cfgT) *world {
	cfg := &config.Config{
		ConfigMapName:          "n0/o0",
		TCPConfigMapName:       "n0/o1",
		EnableEndpointSliceAPI: c.epSlice,
		HasGatewayA2:           c.hasA2,
		HasGatewayB1:           c.hasB1,
		HasGatewayV1:           c.hasV1,
		HasTCPRouteA2:          c.hasTCPR,
	}
	if c.publish {
		cfg.PublishService = "n0/o0"
	}
	wd := &world{
		w:    reconciler.VerifCreateWatchers(context.Background(), cfg, stubValidator{}),
		q:    &reconciler.VerifQueue{},
		hdlr: map[reflect.Type]reconciler.VerifHandler{},
	}
	for _, h := range wd.w.Handlers() {
		wd.hdlr[reflect.TypeOf(h.Type())] = h
	}
	return wd
}

// fire delivers one event the way controller-runtime's source does: the handler is called iff
// every predicate of the handler accepts the event (pkg/internal/source/event_handler.go).
// A kind whose handler is not registered delivers nothing. Generic events skip the predicates.
func (wd *world) fire(o opT, id int) (accepted bool) {
	h, ok := wd.hdlr[reflect.TypeOf(newObj(o.kind))]
	if !ok {
		return false
	}
	ctx := context.Background()
	switch o.typ {
	case 'c':
		obj := mkObj(o, id, false)
		for _, p := range h.Predicates() {
			if !p.Create(event.CreateEvent{Object: obj}) {
				return false
			}
		}
		h.Create(ctx, obj, wd.q)
	case 'u':
		old, new := mkObj(o, id, true), mkObj(o, id, false)
		for _, p := range h.Predicates() {
			if !p.Update(event.UpdateEvent{ObjectOld: old, ObjectNew: new}) {
				return false
			}
		}
		h.Update(ctx, old, new, wd.q)
	case 'd':
		obj := mkObj(o, id, false)
		for _, p := range h.Predicates() {
			if !p.Delete(event.DeleteEvent{Object: obj}) {
				return false
			}
		}
		h.Delete(ctx, obj, wd.q)
	case 'D':
		// a delete whose final state is unknown (tombstone found by a relist): the same event for the controller
		obj := mkObj(o, id, false)
		for _, p := range h.Predicates() {
			if !p.Delete(event.DeleteEvent{Object: obj, DeleteStateUnknown: true}) {
				return false
			}
		}
		h.DeleteUnknown(ctx, obj, wd.q)
	case 'g':
		h.Generic(ctx, mkObj(o, id, false), wd.q)
	}
	return true
}

// ---------------------------------------------------------------- canonical batch

func dataStr(m map[string]string) string {
	if m == nil {
		return "-"
	}
	if len(m) == 0 {
		return "e"
	}
	return "d" + m["k"]
}

func orDash(s string) string {
	if s == "" {
		return "-"
	}
	return s
}

// batchStr: typed lists are SLICES (append order kept), Objects is a slice, Links is a map of
// slices (resources sorted, names in slice order). Every slice-of-pointer field of
// ChangedObjects is printed, so an entry in a list the model does not know is visible.
func batchStr(ch *convtypes.ChangedObjects) (s string, empty bool) {
	v := reflect.ValueOf(ch).Elem()
	t := v.Type()
	var typed []string
	for i := 0; i < t.NumField(); i++ {
		f := v.Field(i)
		if f.Kind() != reflect.Slice || f.Type().Elem().Kind() != reflect.Ptr || f.Len() == 0 {
			continue
		}
		tags := make([]string, f.Len())
		for j := 0; j < f.Len(); j++ {
			tags[j] = string(f.Index(j).Interface().(client.Object).GetUID())
		}
		typed = append(typed, t.Field(i).Name+":"+strings.Join(tags, "."))
	}
	sort.Strings(typed)
	var links []string
	for r, names := range ch.Links {
		if len(names) > 0 {
			links = append(links, string(r)+"="+strings.Join(names, ","))
		}
	}
	sort.Strings(links)
	empty = ch.GlobalConfigMapDataNew == nil && ch.TCPConfigMapDataNew == nil && len(typed) == 0 &&
		!ch.NeedFullSync && len(ch.Objects) == 0 && len(links) == 0
	return strings.Join([]string{dataStr(ch.GlobalConfigMapDataCur), dataStr(ch.GlobalConfigMapDataNew),
		dataStr(ch.TCPConfigMapDataCur), dataStr(ch.TCPConfigMapDataNew), b2s(ch.NeedFullSync),
		orDash(strings.Join(typed, "+")), orDash(strings.Join(ch.Objects, ",")), orDash(strings.Join(links, "+"))}, "|"), empty
}

func bitsStr(bs []bool) string {
	var b strings.Builder
	for _, x := range bs {
		b.WriteString(b2s(x))
	}
	return orDash(b.String())
}

// ---------------------------------------------------------------- runners

var out *bufio.Writer
var stats = map[string]int{}

func runSeq(c cfgT, ops []opT) (res string) {
	defer func() {
		if r := recover(); r != nil {
			fmt.Fprintln(os.Stderr, "panic:", r)
			res = "PANIC"
		}
	}()
	wd := newWorld(c)
	var acc []bool
	var batches []string
	for id, o := range ops {
		if o.swap {
			s, _ := batchStr(wd.w.GetChangedObjects())
			batches = append(batches, s)
			continue
		}
		acc = append(acc, wd.fire(o, id))
	}
	parts := append([]string{"acc=" + bitsStr(acc), "q=" + bitsStr(wd.q.Items())}, batches...)
	return strings.Join(parts, ";")
}

func emitSeq(c cfgT, ops []opT) {
	fmt.Fprintf(out, "C14 seq %s %s => %s\n", c, opsStr(ops), runSeq(c, ops))
	stats["seq_cases"]++
	n, sw := 0, 0
	for _, o := range ops {
		if o.swap {
			sw++
		} else {
			n++
			stats["seq_ev_"+o.kind+"_"+string(o.typ)]++
			if o.typ == 'u' && o.vOld != o.vNew {
				stats["seq_ev_validity_flip"]++
			}
		}
	}
	stats["seq_events"] += n
	stats["seq_swaps"] += sw
}

// runConc: one goroutine per group fires its events in order; the swapper takes batches until
// every group is done, then once more. Completely empty batches are not printed (removing one
// keeps the Cur/New chain intact).
func runConc(c cfgT, groups [][]opT) (res string) {
	wd := newWorld(c)
	total := 0
	for _, g := range groups {
		total += len(g)
	}
	acc := make([]bool, total)
	var wg sync.WaitGroup
	var panicked atomic.Bool
	var running atomic.Int32
	start := make(chan struct{})
	base := 0
	for _, g := range groups {
		wg.Add(1)
		running.Add(1)
		go func(g []opT, base int) {
			defer wg.Done()
			defer running.Add(-1)
			defer func() {
				if r := recover(); r != nil {
					fmt.Fprintln(os.Stderr, "panic:", r)
					panicked.Store(true)
				}
			}()
			<-start
			for i, o := range g {
				acc[base+i] = wd.fire(o, base+i)
				if (base+i)%7 == 0 {
					runtime.Gosched()
				}
			}
		}(g, base)
		base += len(g)
	}
	var batches []string
	emptyBatches := 0
	done := make(chan struct{})
	go func() {
		defer close(done)
		defer func() {
			if r := recover(); r != nil {
				fmt.Fprintln(os.Stderr, "panic:", r)
				panicked.Store(true)
			}
		}()
		<-start
		for last := false; ; {
			if running.Load() == 0 {
				last = true
			}
			s, empty := batchStr(wd.w.GetChangedObjects())
			if empty {
				emptyBatches++
			} else {
				batches = append(batches, s)
			}
			if last {
				return
			}
			runtime.Gosched()
		}
	}()
	close(start)
	wg.Wait()
	<-done
	if panicked.Load() {
		return "PANIC"
	}
	stats["conc_batches"] += len(batches)
	stats["conc_empty_batches_dropped"] += emptyBatches
	items := wd.q.Items()
	nfull := 0
	for _, f := range items {
		if f {
			nfull++
		}
	}
	parts := append([]string{"acc=" + bitsStr(acc), fmt.Sprintf("q=%d.%d", nfull, len(items))}, batches...)
	return strings.Join(parts, ";")
}

func emitConc(c cfgT, groups [][]opT) {
	gs := make([]string, len(groups))
	n := 0
	for i, g := range groups {
		gs[i] = opsStr(g)
		n += len(g)
	}
	fmt.Fprintf(out, "C14 conc %s %s => %s\n", c, strings.Join(gs, "/"), runConc(c, groups))
	stats["conc_cases"]++
	stats["conc_events"] += n
	stats["conc_goroutines"] += len(groups)
}

// ---------------------------------------------------------------- generators

func ev(kind string, typ byte, ns, name int) opT {
	return opT{kind: kind, typ: typ, ns: ns, name: name, label: -1, vOld: true, vNew: true, chgd: true, data: -1}
}

func (o opT) valid(vo, vn bool) opT { o.vOld, o.vNew = vo, vn; return o }
func (o opT) withData(d int) opT    { o.data = d; return o }
func (o opT) unchanged() opT        { o.chgd = false; return o }
func (o opT) withLabel(l int) opT   { o.label = l; return o }

var swapOp = opT{swap: true}

func randEvent(r *gen.Rng, kinds []string, names int) opT {
	k := gen.Pick(r, kinds)
	o := ev(k, gen.Pick(r, []byte{'c', 'u', 'u', 'u', 'd', 'D'}), r.Intn(2), 2+r.Intn(names))
	if r.Chance(1, 40) {
		o.typ = 'g'
	}
	if clusterScoped[k] {
		o.ns = -1
	}
	switch k {
	case "cm":
		o.name = r.Intn(3) // 0 global, 1 tcp, 2 other
		o.ns = 0
		if r.Chance(1, 8) {
			o.ns = 1
		}
		o.data = r.Range(-1, 4)
		if r.Chance(1, 2) {
			o.data = r.Range(1, 9)
		}
	case "svc":
		if r.Chance(1, 4) {
			o.ns, o.name = 0, 0 // the publish service
		}
	case "eps":
		if r.Bool() {
			o.label = 2 + r.Intn(names)
		}
	}
	o.vOld, o.vNew = r.Chance(2, 3), r.Chance(2, 3)
	o.chgd = r.Chance(5, 6)
	return o
}

func randCfg(r *gen.Rng) cfgT {
	return cfgT{r.Bool(), r.Chance(2, 3), r.Chance(2, 3), r.Chance(2, 3), r.Chance(2, 3), r.Bool()}
}

func corpus() {
	all := cfgT{false, true, true, true, true, true}
	// (finding) an Ingress entering / leaving the class is listed as add / del but described as update
	emitSeq(cfgT{}, []opT{ev("ing", 'u', 0, 2).valid(false, true), swapOp})
	emitSeq(cfgT{}, []opT{ev("ing", 'u', 0, 2).valid(true, false), swapOp})
	emitSeq(all, []opT{ev("gwclsB1", 'u', -1, 2).valid(false, true), ev("gwA2", 'u', 0, 2).valid(true, false), swapOp})
	// (fixed f69446d, regression witness) a ConfigMap emptied to nil data was announced as "no change"
	emitSeq(cfgT{}, []opT{ev("cm", 'c', 0, 0).withData(3), swapOp, ev("cm", 'u', 0, 0).withData(-1), swapOp, swapOp})
	emitSeq(cfgT{}, []opT{ev("cm", 'c', 0, 1).withData(3), swapOp, ev("cm", 'u', 0, 1).withData(5), ev("cm", 'u', 0, 1).withData(-1), swapOp, swapOp})
	// chaining, empty (non-nil) data, unrelated ConfigMap, delete of the ConfigMap
	emitSeq(cfgT{}, []opT{ev("cm", 'c', 0, 0).withData(1), ev("cm", 'c', 0, 1).withData(2), swapOp, swapOp,
		ev("cm", 'u', 0, 0).withData(0), swapOp, ev("cm", 'u', 0, 2).withData(7), ev("cm", 'd', 0, 0), swapOp, ev("cm", 'u', 0, 1).withData(4), swapOp, swapOp})
	// dedup of links and descriptions, same name in two resources, event during/after swap
	emitSeq(cfgT{}, []opT{ev("secret", 'u', 0, 2), ev("secret", 'u', 0, 2), ev("svc", 'u', 0, 2), ev("secret", 'd', 0, 2), swapOp,
		ev("secret", 'u', 0, 2), swapOp, swapOp})
	// tombstone deletes (DeleteStateUnknown) are ordinary deletions for the batch (after seed C14h)
	emitSeq(cfgT{}, []opT{ev("ing", 'c', 0, 2), swapOp, ev("ing", 'D', 0, 2), swapOp, swapOp})
	emitSeq(cfgT{}, []opT{ev("svc", 'D', 0, 2), ev("secret", 'D', 0, 3), ev("ep", 'D', 0, 2), swapOp, ev("cm", 'D', 0, 0), swapOp})
	// both invalid: rejected for Ingress (predicate), accepted without list entry for a Gateway
	emitSeq(all, []opT{ev("ing", 'u', 0, 2).valid(false, false), ev("gwA2", 'u', 0, 2).valid(false, false), ev("ing", 'c', 0, 3).valid(true, false), swapOp})
	// EndpointSlice service-name label, endpoints API selection, pod create, unchanged updates, generic
	emitSeq(cfgT{epSlice: true}, []opT{ev("eps", 'u', 0, 2).withLabel(5), ev("eps", 'c', 0, 3), ev("eps", 'u', 0, 4), ev("ep", 'u', 0, 2), ev("pod", 'c', 0, 2),
		ev("pod", 'u', 0, 2).unchanged(), ev("pod", 'u', 0, 2), ev("svc", 'u', 0, 2).unchanged(), ev("secret", 'u', 0, 2).unchanged(),
		{kind: "svc", typ: 'g', ns: 0, name: 2, label: -1, data: -1}, swapOp})
	emitSeq(cfgT{publish: true}, []opT{ev("svc", 'u', 0, 0).unchanged(), ev("svc", 'u', 0, 2).unchanged(), ev("ep", 'u', 0, 2), ev("eps", 'u', 0, 2), swapOp})
	// handlers that are not registered
	emitSeq(cfgT{}, []opT{ev("gwA2", 'c', 0, 2), ev("tcpr", 'c', 0, 2), ev("hrV1", 'u', 0, 2), swapOp})
	emitSeq(all, []opT{ev("gwA2", 'c', 0, 2), ev("gwB1", 'c', 0, 2), ev("gwV1", 'c', 0, 2), ev("tcpr", 'c', 0, 2), ev("hrV1", 'u', 0, 2),
		ev("gwclsV1", 'd', -1, 2).valid(true, false), ev("gwclsA2", 'd', -1, 2), swapOp})
}

// exhaustive: every sequence up to length n over a small alphabet that reaches every branch of
// the accumulator (typed lists, the four update classifications, dedup, both ConfigMaps, swap)
func exhaustive(n int) {
	alpha := []opT{
		swapOp,
		ev("ing", 'c', 0, 2),
		ev("ing", 'u', 0, 2),
		ev("ing", 'u', 0, 2).valid(false, true),
		ev("ing", 'u', 0, 3).valid(true, false),
		ev("ing", 'd', 0, 2),
		ev("ing", 'D', 0, 3),
		ev("cm", 'u', 0, 0).withData(1),
		ev("cm", 'u', 0, 0).withData(2),
		ev("cm", 'u', 0, 0).withData(-1),
		ev("cm", 'u', 0, 1).withData(3),
		ev("svc", 'u', 0, 2),
	}
	c := cfgT{}
	var rec func(cur []opT)
	rec = func(cur []opT) {
		if len(cur) > 0 {
			emitSeq(c, append(append([]opT{}, cur...), swapOp))
		}
		if len(cur) == n {
			return
		}
		for _, a := range alpha {
			rec(append(cur, a))
		}
	}
	rec(nil)
}

func randomSeq(r *gen.Rng, n int) {
	for i := 0; i < n; i++ {
		c := randCfg(r)
		kinds := allKinds
		if r.Chance(1, 3) {
			kinds = []string{"ing", "cm", "svc", "secret", "ingcls"}
		}
		if r.Chance(1, 6) {
			kinds = []string{"gwA2", "gwclsA2", "gwB1", "gwclsB1", "gwV1", "hrB1", "ing"}
			c.hasA2, c.hasB1, c.hasV1 = true, true, true
		}
		l := r.Range(1, 60)
		if r.Chance(1, 3) {
			l = r.Range(1, 8)
		}
		names := r.Range(1, 4)
		swapDen := r.Range(2, 12)
		var ops []opT
		for j := 0; j < l; j++ {
			if r.Chance(1, swapDen) {
				ops = append(ops, swapOp)
			} else {
				ops = append(ops, randEvent(r, kinds, names))
			}
		}
		if r.Chance(4, 5) {
			ops = append(ops, swapOp)
		}
		emitSeq(c, ops)
	}
}

func randomConc(r *gen.Rng, cases, perGroup int) {
	for i := 0; i < cases; i++ {
		c := cfgT{r.Bool(), true, true, true, true, r.Bool()}
		// partition of the kinds into goroutines: every kind is delivered by exactly one goroutine
		ng := r.Range(2, 8)
		part := make([][]string, ng)
		kinds := append([]string{}, allKinds...)
		gen.Shuffle(r, kinds)
		for j, k := range kinds {
			part[j%ng] = append(part[j%ng], k)
		}
		groups := make([][]opT, ng)
		uniq := 10
		for g := range groups {
			n := r.Range(perGroup/2, perGroup)
			for j := 0; j < n; j++ {
				o := randEvent(r, part[g], 3)
				if o.kind != "cm" && !(o.kind == "svc" && o.name == 0) && r.Chance(3, 4) {
					uniq++
					o.name = uniq // a name no other event uses: the event is locatable in the batches
					if o.label >= 0 {
						o.label = uniq
					}
				}
				groups[g] = append(groups[g], o)
			}
		}
		emitConc(c, groups)
	}
}

func TestC14(t *testing.T) {
	out = bufio.NewWriterSize(os.Stdout, 1<<20)
	defer out.Flush()
	tier := os.Getenv("HV_TIER")
	seed, _ := strconv.ParseUint(os.Getenv("HV_SEED"), 10, 64)
	if replay := os.Getenv("HV_REPLAY"); replay != "" {
		data, err := os.ReadFile(replay)
		if err != nil {
			t.Fatal(err)
		}
		for _, line := range strings.Split(string(data), "\n") {
			if i := strings.Index(line, " => "); i >= 0 {
				line = line[:i]
			}
			f := strings.Fields(line)
			if len(f) != 4 || f[0] != "C14" {
				continue
			}
			switch f[1] {
			case "seq":
				emitSeq(parseCfg(f[2]), parseOps(f[3]))
			case "conc":
				var groups [][]opT
				for _, g := range strings.Split(f[3], "/") {
					groups = append(groups, parseOps(g))
				}
				emitConc(parseCfg(f[2]), groups)
			}
		}
		return
	}
	thorough := tier == "thorough"
	corpus()
	if thorough {
		exhaustive(5)
	} else {
		exhaustive(3)
	}
	r := gen.New(seed)
	if thorough {
		randomSeq(r.Fork(), 60000)
		randomConc(r.Fork(), 150, 250)
	} else {
		randomSeq(r.Fork(), 6000)
		randomConc(r.Fork(), 40, 200)
	}
	keys := make([]string, 0, len(stats))
	for k := range stats {
		keys = append(keys, k)
	}
	sort.Strings(keys)
	for _, k := range keys {
		fmt.Fprintf(out, "#stat %s %d\n", k, stats[k])
	}
}
