//go:build verif

// Package xnsworld: the shared world of the C08 and C09 harnesses. It builds the REAL cache
// facade of pkg/controller/services (through the verif hook
// /repo/pkg/controller/services/verif_export.go) over a controller-runtime fake client that
// (a) logs every Get/List and (b) stamps the GVK on returned objects the way the real
// CacheReader does, plus the real ingress converter / annotation updater over that facade.
package xnsworld

import (
	"context"
	"crypto/ecdsa"
	"crypto/elliptic"
	"crypto/rand"
	"crypto/sha1"
	"crypto/x509"
	"crypto/x509/pkix"
	"encoding/hex"
	"encoding/pem"
	"fmt"
	"math/big"
	"os"
	"path/filepath"
	"sort"
	"strings"
	"sync"
	"time"

	"k8s.io/apimachinery/pkg/api/meta"
	"k8s.io/apimachinery/pkg/runtime"
	clientgoscheme "k8s.io/client-go/kubernetes/scheme"
	"sigs.k8s.io/controller-runtime/pkg/client"
	"sigs.k8s.io/controller-runtime/pkg/client/apiutil"
	"sigs.k8s.io/controller-runtime/pkg/client/fake"
	"sigs.k8s.io/controller-runtime/pkg/client/interceptor"
	gatewayv1 "sigs.k8s.io/gateway-api/apis/v1"
	gatewayv1alpha2 "sigs.k8s.io/gateway-api/apis/v1alpha2"
	gatewayv1beta1 "sigs.k8s.io/gateway-api/apis/v1beta1"

	"github.com/jcmoraisjr/haproxy-ingress/pkg/controller/config"
	"github.com/jcmoraisjr/haproxy-ingress/pkg/controller/services"
	"github.com/jcmoraisjr/haproxy-ingress/pkg/converters"
	"github.com/jcmoraisjr/haproxy-ingress/pkg/converters/tracker"
	convtypes "github.com/jcmoraisjr/haproxy-ingress/pkg/converters/types"
	"github.com/jcmoraisjr/haproxy-ingress/pkg/haproxy"
	"github.com/jcmoraisjr/haproxy-ingress/pkg/utils"

	"hapverif/hvutil"
)

// ControllerName / IngressClass: the defaults of pkg/controller/config.
const (
	ControllerName = "haproxy-ingress.github.io/controller"
	IngressClass   = "haproxy"
	AnnPrefix      = "haproxy-ingress.github.io"
)

// Scheme has the core types and the three Gateway API versions.
var Scheme = func() *runtime.Scheme {
	s := runtime.NewScheme()
	must(clientgoscheme.AddToScheme(s))
	must(gatewayv1.Install(s))
	must(gatewayv1beta1.Install(s))
	must(gatewayv1alpha2.Install(s))
	return s
}()

func must(err error) {
	if err != nil {
		panic(err)
	}
}

// ReadRec is one logged read of the client.
type ReadRec struct {
	Verb  string // get | list
	Kind  string
	NS    string
	Name  string
	Found bool
}

func (r ReadRec) String() string {
	f := "0"
	if r.Found {
		f = "1"
	}
	return r.Verb + ":" + r.Kind + ":" + r.NS + "/" + r.Name + ":" + f
}

// LogClient is the fake client with the read log.
type LogClient struct {
	client.Client
	mu  sync.Mutex
	log []ReadRec
}

// Reads returns a copy of the log and clears it.
func (l *LogClient) Reads() []ReadRec {
	l.mu.Lock()
	defer l.mu.Unlock()
	r := l.log
	l.log = nil
	return r
}

func (l *LogClient) add(r ReadRec) {
	l.mu.Lock()
	l.log = append(l.log, r)
	l.mu.Unlock()
}

func stamp(obj runtime.Object) {
	if gvk, err := apiutil.GVKForObject(obj, Scheme); err == nil {
		obj.GetObjectKind().SetGroupVersionKind(gvk)
	}
}

func kindOf(obj runtime.Object) string {
	gvk, err := apiutil.GVKForObject(obj, Scheme)
	if err != nil {
		return fmt.Sprintf("%T", obj)
	}
	return strings.TrimSuffix(gvk.Kind, "List")
}

// NewClient builds the logging, GVK-stamping fake client holding objs.
func NewClient(objs ...client.Object) *LogClient {
	l := &LogClient{}
	l.Client = fake.NewClientBuilder().WithScheme(Scheme).WithObjects(objs...).
		WithInterceptorFuncs(interceptor.Funcs{
			Get: func(ctx context.Context, c client.WithWatch, key client.ObjectKey, obj client.Object, opts ...client.GetOption) error {
				err := c.Get(ctx, key, obj, opts...)
				l.add(ReadRec{"get", kindOf(obj), key.Namespace, key.Name, err == nil})
				if err == nil {
					stamp(obj)
				}
				return err
			},
			List: func(ctx context.Context, c client.WithWatch, list client.ObjectList, opts ...client.ListOption) error {
				err := c.List(ctx, list, opts...)
				l.add(ReadRec{"list", kindOf(list), "", "", err == nil})
				if err == nil {
					_ = meta.EachListItem(list, func(o runtime.Object) error { stamp(o); return nil })
				}
				return err
			},
		}).Build()
	return l
}

// ---------------------------------------------------------------- certificates

// PEMs generated once per process (their bytes never reach a case line).
type PEMs struct{ Crt, Key, CA []byte }

var (
	pemOnce sync.Once
	pems    PEMs
	fakeCrt *x509.Certificate
)

func selfSigned(cn string, isCA bool) (crt, key []byte, parsed *x509.Certificate) {
	priv, err := ecdsa.GenerateKey(elliptic.P256(), rand.Reader)
	must(err)
	tmpl := x509.Certificate{
		SerialNumber:          big.NewInt(time.Now().UnixNano()),
		Subject:               pkix.Name{CommonName: cn},
		NotBefore:             time.Now().Add(-time.Hour),
		NotAfter:              time.Now().Add(24 * time.Hour),
		KeyUsage:              x509.KeyUsageDigitalSignature | x509.KeyUsageCertSign,
		ExtKeyUsage:           []x509.ExtKeyUsage{x509.ExtKeyUsageServerAuth, x509.ExtKeyUsageClientAuth},
		BasicConstraintsValid: true,
		IsCA:                  isCA,
		DNSNames:              []string{cn},
	}
	der, err := x509.CreateCertificate(rand.Reader, &tmpl, &tmpl, &priv.PublicKey, priv)
	must(err)
	kder, err := x509.MarshalECPrivateKey(priv)
	must(err)
	parsed, err = x509.ParseCertificate(der)
	must(err)
	return pem.EncodeToMemory(&pem.Block{Type: "CERTIFICATE", Bytes: der}),
		pem.EncodeToMemory(&pem.Block{Type: "EC PRIVATE KEY", Bytes: kder}), parsed
}

// GetPEMs returns a certificate/key pair and a CA bundle.
func GetPEMs() PEMs {
	pemOnce.Do(func() {
		pems.Crt, pems.Key, fakeCrt = selfSigned("verif.local", false)
		pems.CA, _, _ = selfSigned("verif-ca", true)
	})
	return pems
}

// ---------------------------------------------------------------- environment

// Settings of one environment.
type Settings struct {
	WatchWithoutClass bool
	ClassPrecedence   bool
	AllowCrossNS      bool // --allow-cross-namespace
	GatewayV1         bool // Gateway API v1 CRDs are installed
}

// Env is one controller "process": config, client, facade, tracker, haproxy model.
type Env struct {
	Dir     string
	Cfg     *config.Config
	Cli     *LogClient
	Tracker convtypes.Tracker
	Dyn     *convtypes.DynamicConfig
	Cache   services.VerifCache
	Logger  *hvutil.Logger
	Inst    haproxy.Instance
	HCfg    haproxy.Config
	Opts    *convtypes.ConverterOptions
}

// NewEnv builds the real facade over a fresh logging client holding objs.
func NewEnv(s Settings, objs ...client.Object) *Env {
	base := ""
	if st, err := os.Stat("/dev/shm"); err == nil && st.IsDir() {
		base = "/dev/shm" // scratch files only: keep them off the disk
	}
	dir, err := os.MkdirTemp(base, "xns")
	must(err)
	for _, d := range []string{"crt", "cacrt", "crl", "dh"} {
		must(os.MkdirAll(filepath.Join(dir, d), 0o755))
	}
	p := GetPEMs()
	cfg := &config.Config{
		AllowCrossNamespace:      s.AllowCrossNS,
		AnnPrefix:                []string{AnnPrefix},
		ControllerName:           ControllerName,
		DefaultDirCerts:          filepath.Join(dir, "crt"),
		DefaultDirCACerts:        filepath.Join(dir, "cacrt"),
		DefaultDirCrl:            filepath.Join(dir, "crl"),
		DefaultDirDHParam:        filepath.Join(dir, "dh"),
		IngressClass:             IngressClass,
		IngressClassPrecedence:   s.ClassPrecedence,
		WatchIngressWithoutClass: s.WatchWithoutClass,
		ElectionNamespace:        "ingress-controller",
		HasGatewayV1:             s.GatewayV1,
	}
	e := &Env{Dir: dir, Cfg: cfg, Cli: NewClient(objs...), Tracker: tracker.NewTracker(), Logger: &hvutil.Logger{Keep: true}}
	// exactly what services.setup does
	e.Dyn = &convtypes.DynamicConfig{StaticCrossNamespaceSecrets: cfg.AllowCrossNamespace}
	e.Cache = services.VerifCreateCacheFacade(context.Background(), e.Cli, cfg, e.Tracker, services.CreateSSLCerts(cfg), e.Dyn, func(client.Object) {})
	// fake default certificate and CA (services.setup: createFakeCertAndCA, unexported)
	fakeFile := filepath.Join(dir, "crt", "_fake-default.pem")
	must(os.WriteFile(fakeFile, append(append([]byte{}, p.Crt...), p.Key...), 0o600))
	fakeCA := filepath.Join(dir, "cacrt", "ca__fake-default.pem")
	must(os.WriteFile(fakeCA, p.CA, 0o600))
	e.Inst = haproxy.CreateInstance(e.Logger, haproxy.InstanceOptions{})
	e.HCfg = e.Inst.Config()
	e.Opts = &convtypes.ConverterOptions{
		Logger:           e.Logger,
		Cache:            e.Cache,
		Tracker:          e.Tracker,
		DynamicConfig:    e.Dyn,
		AnnotationPrefix: cfg.AnnPrefix,
		FakeCrtFile:      convtypes.CrtFile{Filename: fakeFile, SHA1Hash: "fake", Certificate: fakeCrt},
		FakeCAFile:       convtypes.CrtFile{Filename: fakeCA, SHA1Hash: "fakeca"},
		HasGatewayV1:     cfg.HasGatewayV1,
	}
	return e
}

// Close removes the scratch directory.
func (e *Env) Close() { os.RemoveAll(e.Dir) }

// Sync runs the real converters (gateway disabled, ingress, no tcp configmap) over changed and
// commits the haproxy model the way Instance.HAProxyUpdate does (without writing files).
func (e *Env) Sync(changed *convtypes.ChangedObjects) {
	converters.NewConverter(utils.NewTimer(nil), e.HCfg, changed, e.Opts).Sync()
}

// Commit closes one reconciliation.
func (e *Env) Commit() { e.HCfg.Commit() }

// Rel strips the scratch directory from a file name.
func (e *Env) Rel(name string) string {
	if name == "" {
		return "-"
	}
	if strings.HasPrefix(name, e.Dir+"/") {
		return name[len(e.Dir)+1:]
	}
	return name
}

// Hostnames of the haproxy model, sorted.
func (e *Env) Hostnames() []string {
	var res []string
	for _, h := range e.HCfg.Hosts().Items() {
		res = append(res, h.Hostname)
	}
	sort.Strings(res)
	return res
}

// SHA1 of data, hex.
func SHA1(data []byte) string {
	s := sha1.Sum(data)
	return hex.EncodeToString(s[:])
}
